#!/usr/bin/env python3
"""Developer helper (not a registered check): a mechanical family of behaviour-preserving edits.

Every local variable (not a parameter, not global/nonlocal, not an except-as / import-as name) of every
function of the selected modules is renamed to a fresh name, consistently through nested scopes that read
it.  The result behaves identically by construction, so every check must give the same verdict as on the
unchanged tree (a finding listed in known_findings.json under a key that spells a renamed local is the
one expected difference: it is then reported as a VIOLATION of the same rule, which is still true).

Usage: tools/rename_locals.py [--per-file] [--suffix _v] [module path prefixes, default: proxy/]
  default: one scratch copy with every selected module renamed, all checks run on it
  --per-file: one scratch copy per module (slower, localises an alarm)
Scratch copies are made with mktemp and removed afterwards."""
import ast
import concurrent.futures as cf
import json
import os
import re
import shutil
import subprocess
import sys
import tempfile
from typing import Dict, List, Set, Tuple

VERIF = os.path.dirname(os.path.dirname(os.path.abspath(__file__)))
PROPS = sorted(f[:-3].upper() for f in os.listdir(os.path.join(VERIF, 'sa', 'rules')) if re.match(r'c\d+\.py$', f))
SCOPES = (ast.FunctionDef, ast.AsyncFunctionDef, ast.Lambda, ast.ListComp, ast.SetComp, ast.DictComp, ast.GeneratorExp)


def _own_nodes(scope: ast.AST):
    """nodes of `scope` that belong to its own scope (nested scopes are yielded but not entered)"""
    todo = list(ast.iter_child_nodes(scope))
    while todo:
        n = todo.pop()
        yield n
        if isinstance(n, SCOPES) or isinstance(n, ast.ClassDef):
            continue
        todo.extend(ast.iter_child_nodes(n))


def _params(fn: ast.AST) -> Set[str]:
    a = fn.args  # type: ignore[attr-defined]
    out = {x.arg for x in a.args + a.kwonlyargs + a.posonlyargs}
    if a.vararg:
        out.add(a.vararg.arg)
    if a.kwarg:
        out.add(a.kwarg.arg)
    return out


def _bound_in(scope: ast.AST) -> Set[str]:
    out: Set[str] = set()
    if isinstance(scope, (ast.FunctionDef, ast.AsyncFunctionDef, ast.Lambda)):
        out |= _params(scope)
    if isinstance(scope, (ast.ListComp, ast.SetComp, ast.DictComp, ast.GeneratorExp)):
        for g in scope.generators:
            for x in ast.walk(g.target):
                if isinstance(x, ast.Name):
                    out.add(x.id)
    for n in _own_nodes(scope):
        if isinstance(n, ast.Name) and isinstance(n.ctx, (ast.Store, ast.Del)):
            out.add(n.id)
        elif isinstance(n, ast.ExceptHandler) and n.name:
            out.add(n.name)
        elif isinstance(n, (ast.FunctionDef, ast.AsyncFunctionDef, ast.ClassDef)):
            out.add(n.name)
        elif isinstance(n, (ast.Import, ast.ImportFrom)):
            for a in n.names:
                out.add((a.asname or a.name).split('.')[0])
    return out


def _unrenamable(fn: ast.AST) -> Set[str]:
    out: Set[str] = set()
    for n in _own_nodes(fn):
        if isinstance(n, (ast.Global, ast.Nonlocal)):
            out |= set(n.names)
        elif isinstance(n, ast.ExceptHandler) and n.name:
            out.add(n.name)
        elif isinstance(n, (ast.FunctionDef, ast.AsyncFunctionDef, ast.ClassDef)):
            out.add(n.name)
        elif isinstance(n, (ast.Import, ast.ImportFrom)):
            for a in n.names:
                out.add((a.asname or a.name).split('.')[0])
        elif isinstance(n, ast.MatchAs) and n.name:
            out.add(n.name)
    # a nested scope that declares the name nonlocal
    for n in ast.walk(fn):
        if isinstance(n, ast.Nonlocal):
            out |= set(n.names)
    return out


def _occurrences(scope: ast.AST, name: str, top: bool = True) -> List[ast.Name]:
    """Name nodes that denote the local `name` of the outermost scope: its own, and those of nested scopes that do not rebind it"""
    out: List[ast.Name] = []
    if not top and name in _bound_in(scope):
        # comprehension: the first iterable is evaluated in the enclosing scope
        if isinstance(scope, (ast.ListComp, ast.SetComp, ast.DictComp, ast.GeneratorExp)):
            for x in ast.walk(scope.generators[0].iter):
                if isinstance(x, ast.Name) and x.id == name:
                    out.append(x)
        return out
    if isinstance(scope, (ast.FunctionDef, ast.AsyncFunctionDef, ast.Lambda)) and not top:
        # defaults / decorators / annotations of a nested def belong to the enclosing scope: reached through _own_nodes of the parent? no: handled below
        pass
    for n in _own_nodes(scope):
        if isinstance(n, ast.Name) and n.id == name:
            out.append(n)
        elif isinstance(n, SCOPES):
            out.extend(_occurrences(n, name, False))
        elif isinstance(n, ast.ClassDef):
            for x in ast.walk(n):
                if isinstance(x, ast.Name) and x.id == name:
                    out.append(None)  # type: ignore[arg-type]   # class bodies: give up on this name
    return out


def rename_source(src: str, suffix: str) -> Tuple[str, int]:
    tree = ast.parse(src)
    all_names = {n.id for n in ast.walk(tree) if isinstance(n, ast.Name)} | {n.attr for n in ast.walk(tree) if isinstance(n, ast.Attribute)} | \
        {a.arg for n in ast.walk(tree) if isinstance(n, ast.arguments) for a in n.args + n.kwonlyargs}
    edits: Dict[Tuple[int, int], Tuple[str, str]] = {}
    count = 0
    funcs = [n for n in ast.walk(tree) if isinstance(n, (ast.FunctionDef, ast.AsyncFunctionDef))]
    # outermost first: a nested function's locals are separate
    for fn in funcs:
        stores = {n.id for n in _own_nodes(fn) if isinstance(n, ast.Name) and isinstance(n.ctx, ast.Store)}
        cand = stores - _params(fn) - _unrenamable(fn) - {'_', '__class__'}
        for name in sorted(cand):
            new = name + suffix
            if new in all_names:
                continue
            occ = _occurrences(fn, name)
            if any(o is None for o in occ):
                continue
            # keyword arguments spelled `name=name` are not Name nodes on the left: fine
            for o in occ:
                edits[(o.lineno, o.col_offset)] = (name, new)
            count += 1
    lines = src.split('\n')
    blines = [l.encode('utf-8') for l in lines]
    for (ln, col), (old, new) in sorted(edits.items(), reverse=True):
        b = blines[ln - 1]
        if b[col:col + len(old.encode())] != old.encode():
            raise RuntimeError('position mismatch at %d:%d (%r)' % (ln, col, b[col:col + 20]))
        blines[ln - 1] = b[:col] + new.encode() + b[col + len(old.encode()):]
    out = '\n'.join(b.decode('utf-8') for b in blines)
    ast.parse(out)
    return out, count


def make_copy(files: List[str], rename: List[str], suffix: str) -> Tuple[str, int]:
    t = tempfile.mkdtemp(prefix='rename.')
    total = 0
    for f in files:
        os.makedirs(os.path.join(t, os.path.dirname(f)), exist_ok=True)
        if f in rename:
            out, n = rename_source(open(os.path.join('/repo', f), encoding='utf-8').read(), suffix)
            total += n
            open(os.path.join(t, f), 'w', encoding='utf-8').write(out)
        else:
            shutil.copy(os.path.join('/repo', f), os.path.join(t, f))
    return t, total


def run_checks(t: str) -> Dict[str, Tuple[int, List[str]]]:
    def one(p: str):
        r = subprocess.run([os.path.join(VERIF, 'check'), p, '--repo', t, '--no-evidence'], capture_output=True, text=True)
        lines = [l.strip()[:260] for l in r.stdout.splitlines() if re.search(r'\[C\d+\.\w+\]|ANALYSIS-ERROR', l)]
        return p, r.returncode, lines
    out = {}
    with cf.ThreadPoolExecutor(max_workers=10) as ex:
        for p, rc, lines in ex.map(one, PROPS):
            if rc != 0:
                out[p] = (rc, lines)
    return out


def main() -> int:
    args = sys.argv[1:]
    per_file = '--per-file' in args
    keep = '--keep' in args
    suffix = '_v'
    if '--suffix' in args:
        suffix = args[args.index('--suffix') + 1]
    prefixes = [a for a in args if not a.startswith('-') and a != suffix] or ['proxy/']
    files = subprocess.check_output(['git', '-C', '/repo', 'ls-files', 'proxy'], text=True).split()
    sel = [f for f in files if f.endswith('.py') and any(f.startswith(p) for p in prefixes)]
    known = json.load(open(os.path.join(VERIF, 'known_findings.json')))['known']
    known_rules = {k['rule'] for k in known}
    bad = 0
    groups = [[f] for f in sel] if per_file else [sel]
    for grp in groups:
        t, n = make_copy(files, grp, suffix)
        try:
            if n == 0:
                continue
            alarms = run_checks(t)
            label = grp[0] if per_file else '%d modules' % len(grp)
            real = {}
            for p, (rc, lines) in alarms.items():
                ls = [l for l in lines if not any('[%s]' % kr in l for kr in known_rules)]
                if ls or rc == 2:
                    real[p] = (rc, ls or lines)
            if real:
                bad += 1
                print('%-50s %4d locals renamed  FALSE ALARM' % (label, n))
                for p, (rc, lines) in real.items():
                    for l in lines[:6]:
                        print('      %s rc=%d %s' % (p, rc, l))
            else:
                print('%-50s %4d locals renamed  silent%s' % (label, n, ' (known findings re-reported under renamed keys: %s)' % sorted(alarms) if alarms else ''))
            if keep:
                print('kept', t)
        finally:
            if not keep:
                shutil.rmtree(t, ignore_errors=True)
    return 1 if bad else 0


if __name__ == '__main__':
    sys.exit(main())
