#!/usr/bin/env python3
"""Developer helper: list every sensitivity-sweep mutant of a property that its rules do NOT report
(the evidence keeps only samples).  Usage: tools/sweep_survivors.py Cxx [function-substring]"""
import os, sys
sys.path.insert(0, os.path.dirname(os.path.dirname(os.path.abspath(__file__))))
from sa import sensitivity as S

def main():
    prop = sys.argv[1].upper()
    sub = sys.argv[2] if len(sys.argv) > 2 else ''
    orig = S.sweep.__defaults__
    r = S.sweep(prop, os.environ.get('VERIF_REPO', '/repo'), 'quick', 0, max_mutants=100000)
    print('evaluated %d reported %d' % (r['mutants_evaluated'], r['mutants_reported_by_the_rules']))
    for k, v in r['per_function'].items():
        print('  %-80s %d/%d' % (k, v['reported'], v['evaluated']))
    for line in r.get('all_survivors', r['not_reported_samples']):
        if sub in line:
            print('SURVIVED', line)

if __name__ == '__main__':
    main()
