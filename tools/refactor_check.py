#!/usr/bin/env python3
"""Developer helper (not a registered check): applies every behaviour-preserving refactoring under
/verif/refactors to a scratch copy of /repo (mktemp, removed afterwards) and runs every property's
quick check on it.  Every check must stay at exit 0.  Usage: tools/refactor_check.py [ids...]"""
import concurrent.futures as cf
import json, os, re, shutil, subprocess, sys, tempfile

VERIF = os.path.dirname(os.path.dirname(os.path.abspath(__file__)))
PROPS = sorted(f[:-3].upper() for f in os.listdir(os.path.join(VERIF, 'sa', 'rules')) if re.match(r'c\d+\.py$', f))


def one(rid: str):
    d = os.path.join(VERIF, 'refactors', rid)
    t = tempfile.mkdtemp(prefix='refactor.')
    try:
        files = subprocess.check_output(['git', '-C', '/repo', 'ls-files', 'proxy'], text=True).split()
        for f in files:
            os.makedirs(os.path.join(t, os.path.dirname(f)), exist_ok=True)
            shutil.copy(os.path.join('/repo', f), os.path.join(t, f))
        r = subprocess.run(['patch', '-p1', '-s', '-d', t, '-i', os.path.join(d, 'patch.diff')], capture_output=True, text=True)
        if r.returncode != 0:
            return rid, None, 'patch does not apply: ' + r.stdout[:200]
        alarms = {}
        for p in PROPS:
            r = subprocess.run([os.path.join(VERIF, 'check'), p, '--repo', t, '--no-evidence'], capture_output=True, text=True)
            if r.returncode != 0:
                lines = [l.strip()[:300] for l in r.stdout.splitlines() if re.search(r'\[C\d+\.\w+\]|ANALYSIS-ERROR', l)]
                alarms[p] = (r.returncode, lines[:4])
        return rid, alarms, ''
    finally:
        shutil.rmtree(t, ignore_errors=True)


def main():
    args = [a for a in sys.argv[1:] if not a.startswith('-')]
    ids = args or sorted(os.listdir(os.path.join(VERIF, 'refactors')))
    bad = 0
    with cf.ThreadPoolExecutor(max_workers=12) as ex:
        for rid, alarms, err in ex.map(one, ids):
            meta_p = os.path.join(VERIF, 'refactors', rid, 'meta.json')
            meta = json.load(open(meta_p))
            if alarms is None:
                print('%-8s ERROR %s' % (rid, err)); bad += 1
                continue
            meta['result'] = 'silent (all %d checks exit 0)' % len(PROPS) if not alarms else 'ALARM: ' + '; '.join('%s exit %d' % (p, a[0]) for p, a in alarms.items())
            json.dump(meta, open(meta_p, 'w'), indent=1)
            if alarms:
                bad += 1
                print('%-8s FALSE ALARM' % rid)
                for p, (rc, lines) in alarms.items():
                    for l in lines:
                        print('         %s rc=%d %s' % (p, rc, l))
            else:
                print('%-8s silent' % rid)
    print('refactorings: %d, raising an alarm: %d' % (len(ids), bad))
    return 1 if bad else 0


if __name__ == '__main__':
    sys.exit(main())
