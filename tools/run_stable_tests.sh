#!/bin/sh
# Developer helper (NOT part of any registered check): run the 222 stable
# baseline tests of a proxy.py tree and compare with /root/.vp/BASELINE.json.
# usage: tools/run_stable_tests.sh [repo_dir]
REPO="${1:-/repo}"
OUT="$(mktemp /tmp/stable.XXXXXX.xml)"
cd "$REPO" || exit 2
/venv/bin/python -m pytest -q -p no:cacheprovider --timeout=120 \
  --deselect tests/integration/test_integration.py \
  --deselect tests/http/proxy/test_http2.py \
  --deselect tests/test_grout.py \
  --deselect tests/test_main.py::TestProxyContextManager \
  --junitxml="$OUT" >"$OUT.log" 2>&1
/venv/bin/python - "$OUT" "$REPO" <<'EOF'
import json, sys, xml.etree.ElementTree as ET
b = json.load(open('/root/.vp/BASELINE.json'))
want = set(b['stable_pass'])
got = set()
bad = []
for tc in ET.parse(sys.argv[1]).getroot().iter('testcase'):
    name = tc.get('classname') + '::' + tc.get('name')
    name = name.replace('[' + sys.argv[2].rstrip('/') + '/helper/', '[/repo/helper/')
    ok = not any(c.tag in ('failure', 'error', 'skipped') for c in tc)
    if ok:
        got.add(name)
    else:
        bad.append(name)
missing = sorted(want - got)
print('stable passed: %d / %d' % (len(want & got), len(want)))
for m in missing:
    print('  NOT PASSING:', m)
sys.exit(1 if missing else 0)
EOF
rc=$?
rm -f "$OUT" "$OUT.log"
exit $rc
