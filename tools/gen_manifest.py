#!/usr/bin/env python3
"""Regenerates /verif/MANIFEST.json from the table below (claimed checks = rule modules
present under sa/rules; everything else is listed under not_applicable with its reason)."""
import json
import os

HERE = os.path.dirname(os.path.dirname(os.path.abspath(__file__)))

# property -> (technique, what the check decides, what it does not / trusted base, DESIGN section)
CLAIMS = {
    'C01': ('path-sensitive dataflow over the CFG of queue/flush and of every relay function; who-may-write and who-may-call tables',
            'buffer algebra (queue appends the argument, flush sends a prefix of the head and removes exactly the sent prefix, counter and list agree), '
            'each relay queues exactly what it received exactly once, nobody else edits a connection buffer, the only proxy-made bytes on an established exchange are the tunnel acknowledgement',
            'orderings across real interleavings, kernel send behaviour, TLS record handling, liveness'),
    'C02': ('sibling cross-check of the two forwarding sites on CFG paths; dataflow of HttpParser.build; concatenation-term check of build_http_pkt',
            'hop-by-hop removal, Via insertion and --disable-headers dominate every forward site; rebuild keeps method/path/version/header spelling; body framing on rebuild follows the Transfer-Encoding header',
            'equality with an independent parser over generated requests; decoded-body equality for arbitrary chunk layouts'),
    'C03': ('carry-over dataflow and complementary-slice agreement in the incremental parsers; dispatch exhaustiveness by constant evaluation',
            'carry-in/carry-out of unparsed bytes, complementary split points, no unchecked fixed-width skip, automaton dispatch covers every state',
            'equality of the final state for every cut position (value-level), completion exactly at the last byte'),
    'C04': ('must-read (dependence) rules and a reset typestate rule on the follow-up request paths',
            'the first parser\'s remainder is consumed, the follow-up request\'s authority/path is consulted for routing, the follow-up parser is fresh per request',
            'one response per request in order under every packing and interleaving'),
    'C05': ('exception-containment analysis over the resolved call graph from the executor loop to every per-work call',
            'no call of a Work protocol method or per-work selector operation reachable from the executor loop can propagate an exception out of the loop; the handler tears down that work only; no mutation of the works table while iterating it',
            'stalls that are not exceptions (blocking connects/handshakes); equality of the canary outcome with its solo outcome'),
    'C06': ('constant evaluation of every self-made response at its builder call site; try/except coverage and reject-implies-close pairing on CFG paths',
            'framing consistency of every response the proxy builds itself, every parse failure becomes 400 + teardown, every rejection response is followed by teardown, canned packets carry the status they claim',
            'acceptance by an independent parser for every builder argument; totality over all byte strings after a successful parse'),
    'C07': ('guarded-exit analysis: path facts at every teardown return of the client handler',
            'teardown is signalled only with an empty client buffer (or after a client-side I/O failure), the flush-before-shutdown flag is set/cleared consistently, read interest dropped and write interest kept while the final flush is pending, threaded shutdown flushes before close',
            'that the last byte leaves the kernel, promptness of the close'),
    'C08': ('path facts of the credential check (short-circuit decomposed), dominance of the plugin chain over connect_upstream, who-may-call, constant evaluation of the 407 packet',
            'the accept path implies header present, two tokens, scheme basic, token equal to flags.auth_code; auth plugin precedes user plugins; nothing is connected/forwarded before the chain passed; credentials stripped at every forward site',
            'nothing (value comparisons are on raw bytes, established by the rule)'),
    'C09': ('def-use chain of the plugin list, chain-loop shape on CFG paths, lifecycle-hook must-pass-through with exception edges',
            'plugin order preserved end to end, every chain loop passes the carried value and stops on None, None suppresses connect/forward, rejection response passes through unchanged, lifecycle hooks are reached exactly once on every exit of shutdown',
            'interaction semantics of arbitrary plugin programs; exactly-once under exceptions raised by plugins themselves'),
    'C10': ('lifecycle typestate per driver, register/unregister pairing, owning-field overwrite and release rules',
            'work lifecycle create/initialize/(events)*/shutdown with removal from the tables on every path, selector registrations paired with bookkeeping and unregistered before close, owning connection fields not overwritten while live and released on teardown, close idempotent by flag',
            'descriptor counts in a live process, selector map contents'),
    'C11': ('policy dataflow from flags to ssl context and to the openssl command lines; who-may-weaken table',
            'verification switched off only by the operator flag, the connection layer applies the mode/hostname/CA it is told, a failed upstream handshake ends the exchange before any relay, the leaf names the host and is signed by the configured CA, SAN type follows the host kind, opt-out tunnels opaquely',
            'handshake outcomes for given certificates, certificate contents as seen by a client'),
    'C12': ('finite-domain evaluation of the port expression, dataflow of the connect target and rewrite arguments, who-may-call',
            'port defaulting table, connect target = chosen URL host/port, TLS wrap iff https, chosen URL belongs to the matched route, path/Host rewrite rules, no route => 404 without connection',
            'regular-expression semantics of arbitrary route tables, header/body preservation beyond C02'),
    'C13': ('taint analysis with a dominating sanitiser on CFG paths (normaliser + containment fact), inter-procedural sink integrity',
            'the path opened is the normalised candidate, guarded on every path by a containment test against the normalised root, unchanged between test and open(); query cut off; static fallback only when no route matched; read failure => 404',
            'symlink policy, byte identity of served content'),
    'C14': ('dataflow from request-target to the socket layer, writer/reader agreement on IPv6 brackets, finite-domain evaluation of default ports',
            'address reaching the socket layer derives from request.host/port only, brackets stripped before the socket layer, default ports 80/443 table, tunnel detection before URL parsing, uninterpretable targets raise inside the 400 handler',
            'agreement with a reference URI parser over the grammar'),
    'C15': ('encoder/decoder agreement rules: radix, terminators, separators; three-valued guard evaluation; dataflow of Content-Length',
            'chunk size radix/terminator agreement and tiling slices, chunked header implies chunk-framed body on rebuild, Content-Length = len of emitted body, size token excludes extensions, update_body encodes as the header says',
            'the round-trip laws themselves (value-level)'),
    'C16': ('struct format arity/width evaluation, symbolic cursor arithmetic on decoder paths, encoder/decoder guard agreement, constant evaluation of bit layouts',
            'format arity and widths, length classes 126/127 <-> 2/8 bytes on both sides, contiguous reads and exact remainder, None-vs-zero tests, bit layout, masking key written/read under the same condition and used for masking, accept-token formula',
            'round trip over all payloads, byte equality with an independent encoder'),
    'C17': ('sibling cross-check of the two drivers (thread-per-connection loop, shared selector loop) and of the work construction sites; who-may-observe table for the mode selection; exactly-one-dispatch on CFG paths of the acceptor',
            'STRUCTURAL CLAUSE ONLY: every mode builds the work object the same way with the same effective constructor keywords, both drivers call the same Work protocol methods and publish the same events, '
            'read-ready descriptors are the first and write-ready descriptors the second argument of handle_events in both drivers, per-connection code does not branch on the execution mode (or on a field that only exists in one mode), '
            'the acceptor hands every accepted connection to exactly one executor and starts the in-process executor exactly when it queues work for it',
            'the behavioural property itself: equality of client/upstream transcripts and of per-connection event order across modes; scheduling, fairness and timing differences between a thread, an in-process loop and a worker process; the operating system\'s descriptor passing'),
    'C18': ('single-consumer who-may-call, fan-out loop shape on CFG paths, no-mutation-while-iterating, guarded subscripts',
            'single FIFO consumer, one send per subscriber per event with the event unchanged, broken channel does not stop the fan-out, eviction after the loop, subscribe/unsubscribe windows, guarded subscripts',
            'cross-process ordering of multiprocessing.Queue with several publishers'),
    'C19': ('symbolic evaluation of listener creation order vs. the reader\'s indices, setup/shutdown pairing and order, no-mutation-while-iterating',
            'the index used for the primary port denotes the primary listener and the index range for additional ports denotes exactly those listeners, port file = reported ports primary first, every started subsystem is stopped in order, every listener shut and removed',
            'that bind/listen succeed, that children exit, file-system state'),
    'C20': ('path facts of the idle predicate, dominance of activity stamping over client I/O, reachability of the reaper in both drivers, constant evaluation of the tick period',
            'idle predicate = no pending output and idle > timeout, activity stamped on every client read/write and nowhere else, reaper closes only what the predicate names, predicate consulted periodically in both drivers',
            'the bound on the reaping delay under load, clock behaviour'),
}

NOT_APPLICABLE: dict = {}

PENDING = 'static rule set designed (DESIGN.md section 4) but not implemented yet; nothing is claimed until the check exists'


def main() -> None:
    props = [json.loads(l) for l in open(os.path.join(HERE, 'properties.jsonl'))]
    checks = []
    na = []
    for p in props:
        pid = p['id']
        have = os.path.exists(os.path.join(HERE, 'sa', 'rules', pid.lower() + '.py'))
        if pid in NOT_APPLICABLE:
            na.append({'property_id': pid, 'reason': NOT_APPLICABLE[pid]})
        elif not have or pid not in CLAIMS:
            na.append({'property_id': pid, 'reason': PENDING})
        else:
            tech, decides, notdec = CLAIMS[pid]
            checks.append({
                'property_id': pid,
                'quick_cmd': './check %s --tier quick' % pid,
                'thorough_cmd': './check %s --tier thorough' % pid,
                'evidence_file': 'evidence/%s.json' % pid,
                'replay_cmd_template': './check %s --replay {path}' % pid,
                'engine': 'sa',
                'level_claimed': {
                    'category': 'other',
                    'text': 'Static analysis of /repo\'s current source (ast, per-function CFG with exception edges, path facts, '
                            'path-sensitive symbolic values, constant evaluation, who-may tables). Decides, for all paths of the anchored code: '
                            + decides + '. These are necessary structural conditions of the property, not the behavioural property itself.',
                    'design_ref': 'DESIGN.md section 4, %s' % pid,
                },
                'level_note': 'Not decided: ' + notdec + '. Trusted base: Python ast semantics as modelled in sa/cfg.py (loops 0/1 iterations per path, '
                              'exception edges only inside try blocks), the enumerated idioms per rule, the frozen who-may tables.',
                'technique': 'static analysis: ' + tech,
            })
    m = {
        'version': 1,
        'setup_cmd': 'mkdir -p evidence replay',
        'hooks': {
            'guard': 'ABHINAVSINGH_PROXY_PY_VERIF',
            'enable': 'not needed: the checks only read /repo source text (ast); nothing is instrumented, imported or executed',
            'baseline_off_cmd': 'cd /repo && /venv/bin/python -m pytest -ra -q -p no:cacheprovider --timeout=900 --continue-on-collection-errors',
            'source_commits': [],
            'add_only': True,
        },
        'engines': [{
            'name': 'sa',
            'path': 'sa/',
            'serves_properties': [c['property_id'] for c in checks],
            'kind_free_text': 'repository-specific static analyser (pure standard library): program model, CFG with short-circuit atoms and typed exception edges, '
                              'feasible-path enumeration with facts, path-sensitive symbolic values, constant evaluator, obligations with known-findings file',
        }],
        'checks': checks,
        'notes': 'All checks are static: they parse /repo on every run and never import or execute it. Exit 0 = all obligations discharged or listed known findings; '
                 'exit 1 = VIOLATION lines; exit 2 = ANALYSIS-ERROR (anchor vanished / construct outside the modelled statement kinds). '
                 'known_findings.json lists genuine defects recorded rather than repaired, and fixed: entries for the fix: commits in /repo.',
        'not_applicable': na,
    }
    with open(os.path.join(HERE, 'MANIFEST.json'), 'w') as f:
        json.dump(m, f, indent=1)
    print('claimed:', [c['property_id'] for c in checks])
    print('not claimed:', [x['property_id'] for x in na])


if __name__ == '__main__':
    main()
